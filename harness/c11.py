"""C11: grain-surface rate coefficients follow the selected dust model.

impl   : real grain reactions of the Leeds / UCLCHEM / native classes with the real grain models -> rateexpr(grain)
model  : Lean `Grain.grainText` (character-level text with opaque magnitudes)
oracle : the dust-model formulas written in physical form (separately, from the papers' notation) evaluated in binary64
         and compared with the evaluation of the emitted text; unimplemented (model, type) pairs must raise
"""
from __future__ import annotations

import math
import sys

from . import ceval, cparse, netgen
from .common import Check, lean_driver, quiet_naunet, silenced, tier_and_seed

quiet_naunet()
MODULES = ["NaunetProps.C11"]
THEOREMS = ["Naunet.C11.grain_parses", "Naunet.C11.dispatch_table", "Naunet.C11.law_trees_match", "Naunet.C11.hh93_depletion_law",
            "Naunet.C11.nu0_law", "Naunet.C11.hh93_thermal_law", "Naunet.C11.rr07_depletion_law", "Naunet.C11.rr07x_thermal_law",
            "Naunet.C11.rr07_guard_law", "Naunet.C11.rr07_h2_law", "Naunet.C11.rr07_cosmicray_law",
            "Naunet.C11.hh93_cosmicray_law", "Naunet.C11.hh93_photon_law", "Naunet.C11.hh93_ecapture_law",
            "Naunet.C11.law_trees_match2", "Naunet.C11.surface_trees_match", "Naunet.C11.base_depletion_law",
            "Naunet.C11.rr07_photon_law", "Naunet.C11.hh93_recombine_law", "Naunet.C11.hh93_surface_law",
            "Naunet.C11.hh93_reactive_law", "Naunet.C11.hh93_surface_no_tunnel", "Naunet.C11.hh93_surface_symm"]
RULE = ("dust models {base, hh93, hh93i, rr07, rr07x} x reaction types {freeze, thermal / cosmic-ray / photo / H2-formation desorption, "
        "recombination, electron capture, surface two-body, reactive desorption} x reaction classes {Leeds, UCLCHEM, native} x species "
        "(CO, H2O, CH4, H, H2 ices incl. tunnelling pairs, ions, electrons; table and user binding energies; yields) x signed alpha; "
        "case = (model, class, type, species, alpha); non-trivial = the pair is implemented")

TYPES = {"freeze": 200, "thermal": 201, "cosmicray": 202, "photon": 203, "reactive": 204, "h2des": 210, "recombine": 220,
         "ecapture": 221, "surface": 300}
LEEDS_RTYPE = {200: 7, 201: 8, 202: 9, 203: 10, 204: 14, 220: 6, 221: 20, 300: 13}
UCL_MARK = {200: "FREEZE", 201: "THERM", 202: "DESCR", 203: "DEUVCR", 210: "DESOH2"}
IMPLEMENTED = {
    "base": {200}, "hh93": {200, 201, 202, 203, 204, 220, 221, 300}, "hh93i": {200, 201, 202, 203, 204, 220, 221, 300},
    "rr07": {200, 202, 203, 210}, "rr07x": {200, 201, 202, 203, 210},
}


def make_reaction(cls, ty, re_names, pr_names, alpha, prefix):
    from naunet.reactions import LEEDSReaction, UCLCHEMReaction, Reaction
    from naunet.reactiontype import ReactionType as RT
    if cls == "leeds":
        r = LEEDSReaction(netgen.leeds_line(1, re_names, pr_names, rtype=LEEDS_RTYPE[ty]))
    elif cls == "uclchem":
        re_ = [re_names[0], UCL_MARK[ty]] + re_names[1:2]
        re_ += ["NAN"] * (3 - len(re_))
        pr_ = pr_names + ["NAN"] * (4 - len(pr_names))
        r = UCLCHEMReaction(",".join(re_ + pr_ + ["1.0", "0.0", "0.0", "0", "0"]))
    else:
        r = Reaction(re_names, pr_names, reaction_type=RT(ty))
    r.alpha = alpha
    return r


def physical(model, ty, p, a, s1, s2, syms):
    """the dust-model formulas in physical notation"""
    pi, kB, amu = p["pi"], p["kerg"], p["amu"]
    T, Td = p[syms["tgas"]], p[syms["tdust"]]
    zeta = p[syms["zeta"]] / p[syms["zism"]]
    rG, sigma = p["rG"], None
    if model in ("base", "hh93", "hh93i"):
        vth = lambda A: math.sqrt(8.0 * kB * T / (pi * amu * A))
        nu0 = lambda s: math.sqrt(2.0 * p["sites"] * kB * s["eb"] / (pi * pi * amu * s["A"]))
        if ty == 200:
            return (p["opt_frz"] if model != "base" else 1.0) * a * pi * rG * rG * p["gdens"] * vth(s1["A"])
        if ty == 201:
            return p["opt_thd"] * p["cov"] * p["nMono"] * p["densites"] * nu0(s1) * math.exp(-s1["eb"] / Td)
        if ty == 203:
            flux = p[syms["g0"]] * p["habing"] * math.exp(-p[syms["av"]] * 3.02) + p["crphot"] * zeta
            return p["opt_uvd"] * p["cov"] * flux * s1["yield"] * p["nMono"] * p["garea"]
        if ty == 202:
            return p["opt_crd"] * p["cov"] * p["duty"] * p["nMono"] * p["densites"] * zeta * nu0(s1) * math.exp(-s1["eb"] / p["Tcr"])
        if ty == 221:
            return pi * rG * rG * math.sqrt(8.0 * kB * T / pi / amu / p["meu"])
        if ty == 220:
            e2 = p["echarge"] ** 2
            return a * pi * rG * rG * p["gdens"] * vth(s1["A"]) * (1.0 + e2 / rG / kB / T) * (1.0 + math.sqrt(2.0 * e2 / (rG * kB * T + 2.0 * e2)))
        if ty in (300, 204):
            def hop(s):
                f = p["freq"] * math.sqrt(s["eb"] / s["A"])
                therm = f * math.exp(-s["eb"] * p["hop"] / Td) / p["unisites"]
                quan = f * math.exp(p["quan"] * math.sqrt(p["hop"] * s["A"] * s["eb"])) / p["unisites"]
                return max(therm, quan) if s["tunnel"] else therm
            kappa = math.exp(-a / Td)
            if s1["tunnel"] or s2["tunnel"]:
                mu = s1["A"] * s2["A"] / (s1["A"] + s2["A"])
                kappa = max(kappa, math.exp(p["quan"] * math.sqrt(mu * a)))
            k = kappa * (hop(s1) + hop(s2)) * (p["nMono"] * p["densites"]) ** 2 / p["gdens"] * p["cov"] * p["cov"]
            return k * (p["opt_rcd"] * p["branch"] if ty == 204 else 1.0)
    else:
        coul = 1.0 + 16.71e-4 / (rG * T)
        if ty == 200:
            k = 4.57e4 * a * p["gxsec"] * p["fr"]
            if s1["electron"]:
                return k * coul
            k *= math.sqrt(T / s1["A"])
            return k * coul if s1["charged"] else k
        if p["mantabund"] <= 1e-30:
            return 0.0
        if ty == 203:
            if not p["eb_uvd"] >= s1["eb"]:
                return 0.0
            return p["opt_uvd"] * 4.875e3 * p["gxsec"] * (zeta + (p[syms["g0"]] / p["uvcreff"]) * math.exp(-1.8 * p[syms["av"]])) * s1["yield"] / p["mant"]
        if ty == 202:
            if not p["eb_crd"] >= s1["eb"]:
                return 0.0
            return p["opt_crd"] * 4.0 * pi * p["crdeseff"] * zeta * 1.64e-4 * p["gxsec"] / p["mant"]
        if ty == 210:
            if not p["eb_h2d"] >= s1["eb"]:
                return 0.0
            return p["opt_h2d"] * p["h2deseff"] * p[syms["h2form"]] * p["y[IDX_HI]"] / p["mant"]
        if ty == 201:
            nu0 = math.sqrt(2.0 * p["sites"] * kB * s1["eb"] / (pi * pi * amu * s1["A"]))
            return p["opt_thd"] * nu0 * 2.0 * p["densites"] * math.exp(-s1["eb"] / Td)
    raise KeyError((model, ty))


MASS = {"H": 1, "C": 12, "O": 16, "N": 14, "e": 0, "Cl": 35, "Mg": 24, "Si": 28}      # nucleon numbers (35Cl, 24Mg, 28Si)


def comp_of(name):
    import re
    if name.lower() in ("e", "e-"):
        return []
    return [(m.group(1), int(m.group(2) or 1)) for m in re.finditer(r"([A-Z][a-z]?)(\d*)", name)]


def read_eb_table():
    from .common import REPO
    out = {}
    for line in (REPO / "naunet" / "chemistrydata" / "rate12_binding_energy.dat").read_text().splitlines():
        if line and not line.startswith("#"):
            f = line.split()
            out[f[0]] = float(f[1])
    return out


EB_TABLE = read_eb_table()


class Params(dict):
    def __init__(self, rng):
        super().__init__()
        self.rng = rng
        self.update({"pi": 3.1415926, "kerg": 1.380658e-16, "amu": 1.6605402e-24, "meu": 5.48579909e-4, "echarge": 4.80320425e-10,
                     "hbar": 1.054571726e-27})

    def __missing__(self, k):
        lo, hi = {"Tgas": (8, 200), "Tdust": (8, 60), "rG": (5e-6, 2e-5), "mantabund": (1e-8, 1e-4), "eb_uvd": (500, 1e4),
                  "eb_crd": (500, 5e3), "eb_h2d": (500, 5e3), "quan": (-1.0, -0.3), "hop": (0.2, 0.5), "sites": (1e15, 2e15), "Tcr": (60, 80)}.get(k, (0.3, 3.0))
        v = self.rng.uniform(lo, hi)
        self[k] = v
        return v


def lit(x):
    r = repr(float(x))
    return [r.startswith("-"), x == 0], r.lstrip("-")


def run(argv):
    from naunet.grains import Grain, HH93Grain, HH93IGrain, RR07Grain, RR07XGrain
    from naunet.species import Species
    from naunet import chemistrydata
    from .ode_checks import reset_species_state
    tier, seed = tier_and_seed(argv)
    chk = Check("C11", tier, seed, MODULES, THEOREMS, RULE)
    chk.prove()
    rng = chk.rng
    models = {"base": Grain, "hh93": HH93Grain, "hh93i": HH93IGrain, "rr07": RR07Grain, "rr07x": RR07XGrain}
    reset_species_state()
    chemistrydata.user_binding_energy.clear()
    chemistrydata.user_photon_yield.clear()
    chemistrydata.update_binding_energy({"GCH4": 1234.5, "#CH4": 1234.5})       # a user override
    chemistrydata.update_photon_yield({"GH2O": 2.5e-3, "#H2O": 2.5e-3})
    reqs, pend = [], []
    reps = 2 if tier == "quick" else 12
    for mname, mcls in models.items():
        # every model with every reaction class that can carry grain reactions (the classes register different symbols:
        # only the Leeds class has a dust temperature of its own)
        classes = ["leeds", "native"] if mname in ("base", "hh93", "hh93i") else ["uclchem", "native", "leeds"]
        for cls in classes:
            prefix = "G" if cls == "leeds" else "#"
            ice = lambda n: prefix + n
            for tname, ty in TYPES.items():
                if cls == "leeds" and ty not in LEEDS_RTYPE:
                    continue
                if cls == "uclchem" and ty not in UCL_MARK:
                    continue
                cases = []
                if ty == 200:
                    cases = [(["CO"], [ice("CO")]), (["H2O"], [ice("H2O")]), (["HCO+"], [ice("HCO")]), (["e-"], []),
                             (["C-"], [ice("C")]), (["OH-"], [ice("OH")])]      # anions are ions too
                    if cls == "leeds":
                        cases = cases[:3] + cases[4:]
                    # species whose atomic weights are far from whole numbers: the mass number is the nucleon count (Cl2: 70, not 71)
                    cases += [(["Cl2"], [ice("Cl2")]), (["MgCl"], [ice("MgCl")]), (["SiCl"], [ice("SiCl")])]
                elif ty in (201, 202, 203, 210):
                    cases = [([ice("CO")], ["CO"]), ([ice("H2O")], ["H2O"]), ([ice("CH4")], ["CH4"]), ([ice("H")], ["H"])]
                elif ty == 220:
                    cases = [(["HCO+", "GRAIN-"], ["H", "CO", "GRAIN0"]), (["H3O+", "GRAIN-"], ["H2O", "H", "GRAIN0"])]
                elif ty == 221:
                    cases = [(["e-", "GRAIN0"], ["GRAIN-"])]
                elif ty in (300, 204):
                    cases = [([ice("H"), ice("CO")], [ice("HCO")]), ([ice("CO"), ice("H")], [ice("HCO")]), ([ice("H"), ice("H")], [ice("H2")]),
                             ([ice("CO"), ice("OH")], [ice("CO2"), ice("H")]), ([ice("H2"), ice("OH")], [ice("H2O"), ice("H")]),
                             ([ice("H2"), ice("H")], [ice("H2"), ice("H")]), ([ice("OH"), ice("H2")], [ice("H2O"), ice("H")])]
                for re_names, pr_names in cases:
                    for rep in range(reps + 1 if ty in (300, 204) else reps):
                        alpha = rng.choice([1.0, 0.5, 2.5e3, -5.0, 0.0, 1.0e-3, 800.0]) if rep else 1.0
                        if ty in (300, 204) and rep in (1, 2):
                            alpha = [2.5e3, -5.0][rep - 1]    # a real activation barrier (tunnelling decides), then a negative one
                        case = {"model": mname, "class": cls, "type": tname, "reactants": re_names, "alpha": alpha}
                        try:
                            with silenced():
                                reac = make_reaction(cls, ty, re_names, pr_names, alpha, prefix)
                                kw = {"surface_prefix": prefix} if cls != "leeds" else {"surface_prefix": "G"}
                                grain = mcls(species=[Species("GRAIN0"), Species("GRAIN-")], group=0)
                                txt = reac.rateexpr(grain)
                            err = None
                        except Exception as e:
                            txt, err = None, type(e).__name__
                        implemented = ty in IMPLEMENTED[mname]
                        chk.count((mname, cls, tname, tuple(re_names), alpha), nontrivial=implemented)
                        chk.hist[f"model:{mname}"] += 1
                        if not implemented:
                            chk.hist["refused:" + str(err)] += 1
                            if txt is not None:
                                chk.violation({"kind": "unimplemented-produced-rate", "model": mname, "type": tname},
                                              f"{mname} does not implement {tname} but a rate was produced: {txt[:120]}", input=case)
                            continue
                        if txt is None:
                            if cls == "native" and err == "AttributeError":
                                chk.hist["native-class-lacks-symbol"] += 1     # refused with an error: the class has no G0 / zism symbol
                                continue
                            chk.violation({"kind": "implemented-refused", "model": mname, "type": tname, "class": cls, "error": err},
                                          f"{mname} / {cls} / {tname}: rateexpr raised {err}", input=case)
                            continue
                        s_infos = []
                        for s in (reac.reactants + [None])[:2]:
                            if s is None or s.is_grain:
                                s = reac.reactants[0]
                            # ground truth of the species data (own reading of the table + the overrides set above)
                            gas = s.name[1:] if s.is_surface else s.name
                            A = float(sum(MASS[e] * n for e, n in comp_of(gas.rstrip("+-")))) if not s.is_grain else 0.0
                            eb = ({"CH4": 1234.5}.get(gas) or EB_TABLE.get(gas, 0.0)) if s.is_surface else 0.0
                            yld = ({"H2O": 2.5e-3}.get(gas) or (1e-3 if mname.startswith("hh93") else 0.1)) if s.is_surface else 0.0
                            s_infos.append({"alias": s.alias, "electron": s.is_electron, "charged": s.charge != 0,
                                            "tunnel": s.name in ("GH", "GH2"), "A": A, "eb": eb, "yield": yld})
                        if ty == 220:
                            sp = next(s for s in reac.reactants if not s.is_grain)
                            s_infos[0] = {"alias": sp.alias, "electron": False, "charged": True, "tunnel": False, "A": sp.A, "eb": 0.0, "yield": 0.0}
                        syms = {"tgas": reac.symbols.temperature.symbol, "tdust": reac.symbols.dust_temperature.symbol,
                                "zeta": reac.symbols.cosmic_ray_ionization_rate.symbol,
                                "zism": getattr(reac.symbols, "ism_cosmic_ray_ionization_rate", None) and reac.symbols.ism_cosmic_ray_ionization_rate.symbol or "zism",
                                "g0": getattr(reac.symbols, "radiation_field", None) and reac.symbols.radiation_field.symbol or "G0",
                                "av": reac.symbols.visual_extinction.symbol,
                                "h2form": getattr(reac.symbols, "H2_formation_rate", None) and reac.symbols.H2_formation_rate.symbol or "H2formation"}
                        # ---- oracle
                        if oracle(chk, rng, mname, ty, alpha, s_infos, syms, txt, case):
                            continue
                        if len(chk.samples) < 6:
                            chk.sample({**case, "emitted": txt[:200]})
                        na, ma = lit(alpha)
                        reqs.append({"cmd": "grainrate", "model": mname, "type": ty, "group": "", "syms": syms, "a": na,
                                     "s1": {k: s_infos[0][k] for k in ("alias", "electron", "charged", "tunnel")},
                                     "s2": {k: s_infos[1][k] for k in ("alias", "electron", "charged", "tunnel")}})
                        mags = {0: ma}
                        for base, si in ((10, s_infos[0]), (20, s_infos[1])):
                            mags[base], mags[base + 1], mags[base + 2] = repr(si["A"]), repr(si["eb"]), repr(si["yield"])
                        pend.append((case, txt, mags))
    if getattr(chk, "lean_ok", False) and reqs:
        try:
            answers = lean_driver(reqs)
        except Exception as e:
            chk.corr_break("driver", None, None, str(e)[:300])
            answers = []
        for (case, txt, mags), ans in zip(pend, answers):
            if "text" not in ans:
                chk.corr_break("grain-text", case, ans, txt)
                continue
            mtxt = "".join(seg if isinstance(seg, str) else mags[seg] for seg in ans["text"])
            if mtxt != txt:
                chk.corr_break("grain-text", case, mtxt, txt)
            else:
                chk.traces += 1
    late_override_check(chk, models)
    constants_check(chk)
    instance_override_check(chk)
    grain_density_check(chk)
    model_switch_check(chk)
    # user overrides given on the command line (project with an element-replacement table, ices of replaced elements): the
    # rendered rate constants must be those of the API rendering with the same tables
    from . import c20
    c20.process(chk, [c20.replaced_binding_desc(rng)], [])
    chemistrydata.user_binding_energy.clear()
    chemistrydata.user_photon_yield.clear()
    return chk.finish()


def late_override_check(chk, models):
    """user overrides are looked up when the rate is generated: a reaction whose rate was already generated once must follow
    a later change of the user tables exactly like a reaction created after it"""
    from naunet import chemistrydata
    from naunet.species import Species
    for mname, cls, prefix, ty in (("hh93", "leeds", "G", 201), ("hh93", "leeds", "G", 203), ("rr07", "uclchem", "#", 202),
                                  ("rr07x", "uclchem", "#", 203), ("hh93i", "native", "#", 201)):
        case = {"model": mname, "class": cls, "type": ty, "reactants": [prefix + "CO"], "sequence": "rate, update tables, rate again"}
        try:
            with silenced():
                grain = models[mname](species=[Species("GRAIN0"), Species("GRAIN-")], group=0)
                old = make_reaction(cls, ty, [prefix + "CO"], ["CO"], 1.0, prefix)
                first = old.rateexpr(grain)
                chemistrydata.update_binding_energy({prefix + "CO": 855.0})
                chemistrydata.update_photon_yield({prefix + "CO": 7.5e-3})
                again = old.rateexpr(grain)
                fresh = make_reaction(cls, ty, [prefix + "CO"], ["CO"], 1.0, prefix).rateexpr(grain)
        except Exception as e:
            chk.hist["late-override-refused:" + type(e).__name__] += 1
            continue
        finally:
            chemistrydata.user_binding_energy.pop(prefix + "CO", None)
            chemistrydata.user_photon_yield.pop(prefix + "CO", None)
        chk.count(("late-override", mname, cls, ty), nontrivial=True)
        if again != fresh:
            chk.violation({"kind": "stale-user-override", "model": mname, "type": ty},
                          f"{mname} / {cls} type {ty}: after update_binding_energy / update_photon_yield the rate of an existing reaction "
                          f"still uses the old species data", input=case, before_update=first[:200], after_update=again[:200],
                          fresh_reaction=fresh[:200])
        elif first == fresh:
            chk.hist["late-override-without-effect"] += 1


def model_switch_check(chk):
    """The dust model is a property of the network that can be assigned (`net.grain_model = …`): after the assignment every rendering
    uses the laws of the model now selected - also when the network was rendered (its grains looked at) under the former model."""
    from naunet.network import Network
    from naunet.species import Species
    from .rendering import render, Rendered
    lines = ["CO,FREEZE,NAN,#CO,NAN,NAN,NAN,1.0,0.0,0.0,0,0", "#CO,DESCR,NAN,CO,NAN,NAN,NAN,1.0,0.0,0.0,0,0",
             "#CO,THERM,NAN,CO,NAN,NAN,NAN,1.0,0.0,0.0,0,0", "H,H,NAN,H2,NAN,NAN,NAN,1.0e-17,0.0,0.0,0,0"]
    f = chk.scratch / "switch.ucl"
    f.write_text("\n".join(lines) + "\n")

    def rates(net, tag):
        path = chk.scratch / f"switch-{tag}"
        render(net, "dense", path)
        return [(i, cparse.token_text(rhs), cparse.token_text(c) if c else None) for i, rhs, c in Rendered(path, "dense").rates("k")]

    for first, second in (("rr07x", "hh93"), ("hh93", "rr07x")):
        try:
            with silenced():
                Species.reset()
                net = Network(filelist=[str(f)], fileformats=["uclchem"], grain_model=first)
                _ = rates(net, f"{first}-first")
                net.grain_model = second
                switched = rates(net, f"{first}-then-{second}")
                Species.reset()
                fresh = rates(Network(filelist=[str(f)], fileformats=["uclchem"], grain_model=second), f"{second}-fresh")
        except Exception as e:
            chk.hist["model-switch-refused:" + type(e).__name__] += 1
            continue
        chk.count(("model-switch", first, second), nontrivial=True)
        chk.hist["model-switch"] += 1
        if switched != fresh:
            i = next((k for k, (a, b) in enumerate(zip(switched, fresh)) if a != b), 0)
            chk.violation({"kind": "model-switch-stale", "from": first, "to": second},
                          f"a network rendered under {first}, then assigned grain_model = {second!r}, renders rate statements that a network "
                          f"built with {second} does not (statement {i}: {switched[i][1][:90] if i < len(switched) else None} instead of "
                          f"{fresh[i][1][:90] if i < len(fresh) else None})", input=lines)


def grain_density_check(chk):
    """Every accretion, recombination and surface rate of the hh93 family is proportional to (or divided by) `gdens`, which the
    generated EvalRates computes from the abundances when the network carries the grains as species: it has to be the sum over
    *all* grain species of the network, whatever their charge."""
    import re
    from naunet.network import Network
    from .poly import poly_of_text, Poly
    from .rendering import render
    lines = [netgen.leeds_line(1, ["HCO+", "GRAIN-"], ["H", "CO", "GRAIN0"], rtype=6), netgen.leeds_line(2, ["e-", "GRAIN0"], ["GRAIN-"], rtype=20),
             netgen.leeds_line(3, ["H", "H"], ["H2"]), netgen.leeds_line(4, ["CO"], ["GCO"], rtype=7), netgen.leeds_line(5, ["GCO"], ["CO"], rtype=8),
             netgen.leeds_line(6, ["H+", "GRAIN-"], ["H", "GRAIN0"], rtype=6), netgen.leeds_line(7, ["C+", "GRAIN0"], ["C", "GRAIN+"], rtype=6)]
    f = chk.scratch / "grains.leeds"
    f.write_text("\n".join(lines) + "\n")
    for model in ("hh93", "hh93i", ""):
        try:
            with silenced():
                from naunet.species import Species
                Species.reset()
                net = Network(filelist=[str(f)], fileformats=["leeds"], grain_model=model,
                              species_kwargs={"grain_symbol": "GRAIN", "surface_prefix": "G", "bulk_prefix": "@"})
                grains_truth = sorted(sp.alias for sp in net.species if sp.name.startswith("GRAIN"))
                path = chk.scratch / f"grains-render-{model or 'base'}"
                render(net, "dense", path)
        except Exception as e:
            chk.hist["grain-density-refused:" + type(e).__name__] += 1
            continue
        body = cparse.function_body((path / "src" / "naunet_rates.cpp").read_text(), "EvalRates")
        m = re.search(r"\brealtype\s+gdens\s*=\s*([^;]+);", body)
        chk.count(("gdens", model), nontrivial=True)
        chk.hist["grain-density"] += 1
        if not m or "->" in m.group(1):
            chk.violation({"kind": "grain-density", "model": model or "base"}, "a network that carries its grains as species does not compute "
                          "`gdens` from their abundances", input={"model": model, "grain_species": grains_truth})
            continue
        want = Poly()
        for a in grains_truth:
            want = want + Poly.atom(f"y[IDX_{a}]")
        try:
            got = poly_of_text(m.group(1))
        except Exception:
            got = None
        if got != want:
            chk.violation({"kind": "grain-density", "model": model or "base"},
                          f"`gdens = {m.group(1).strip()}` is not the total density of the grain species {grains_truth}: every rate that "
                          f"scales with the grain density (accretion, recombination on grains, surface reactions) is off by the missing "
                          f"fraction", input={"model": model, "reactions": lines[:3], "grain_species": grains_truth})


def instance_override_check(chk):
    """A binding energy may also be set on a species object (`Species.binding_energy = …`).  The rate of a desorption reaction uses the
    binding energy of the species that desorbs, i.e. of that reaction's own reactant: when it is set on the reacting species of the
    desorption reactions, the `eb_<alias>` constant those rates refer to carries that value."""
    import re
    from naunet.network import Network
    from naunet.species import Species
    from .rendering import render
    text = ("CO,FREEZE,NAN,#CO,NAN,NAN,NAN,1.0,0.0,0.0,0.0,10000.0\n#CO,THERM,NAN,CO,NAN,NAN,NAN,1.0,0.0,0.0,0.0,10000.0\n"
            "#CO,DESCR,NAN,CO,NAN,NAN,NAN,1.0,0.0,0.0,0.0,10000.0\nH,H,NAN,H2,NAN,NAN,NAN,1.0e-17,0.0,0.0,0.0,10000.0\n")
    f = chk.scratch / "instance.ucl"
    f.write_text(text)
    for model in ("hh93", "rr07x"):
        try:
            with silenced():
                Species.reset()
                net = Network(filelist=[str(f)], fileformats=["uclchem"], grain_model=model)
                for r in net.reaction_list:
                    for sp in r.reactants:
                        if sp.name == "#CO":
                            sp.binding_energy = 1500.0
                path = chk.scratch / f"instance-{model}"
                render(net, "dense", path)
        except Exception as e:
            chk.hist["instance-override-refused:" + type(e).__name__] += 1
            continue
        txt = (path / "src" / "naunet_constants.cpp").read_text()
        got = {m.group(1): float(m.group(2)) for m in re.finditer(r"double eb_(\w+)\s*=\s*([-+0-9.eE]+);", txt)}
        chk.count(("instance-override", model), nontrivial=True)
        chk.hist["instance-override"] += 1
        if got.get("GCOI") != 1500.0:
            chk.violation({"kind": "binding-energy-constant", "route": "instance", "model": model},
                          f"{model}: the binding energy 1500 K was set on the #CO that desorbs (reactant of the thermal and cosmic-ray desorption "
                          f"reactions); the constant their rates use is eb_GCOI = {got.get('GCOI')}", input=text.split(chr(10))[:3])


def constants_check(chk):
    """the binding-energy constants emitted for the ice species are the species' own values (user override first)"""
    import re
    from naunet.network import Network
    from .rendering import render
    lines = [netgen.leeds_line(1, ["CO"], ["GCO"], rtype=7), netgen.leeds_line(2, ["GCO"], ["CO"], rtype=8),
             netgen.leeds_line(3, ["CH4"], ["GCH4"], rtype=7), netgen.leeds_line(4, ["GCH4"], ["CH4"], rtype=8),
             netgen.leeds_line(5, ["H2O"], ["GH2O"], rtype=7), netgen.leeds_line(6, ["GH2O"], ["H2O"], rtype=10),
             # charged ices have entries of their own in the RATE12 table (OH- 1260 K next to OH 2850 K, CN- 1510 K next to CN 1600 K)
             netgen.leeds_line(7, ["GOH-"], ["OH-"], rtype=8), netgen.leeds_line(8, ["GCN-"], ["CN-"], rtype=8),
             netgen.leeds_line(9, ["GOH"], ["OH"], rtype=8)]
    f = chk.scratch / "ice.leeds"
    f.write_text("\n".join(lines) + "\n")
    try:
        with silenced():
            net = Network(filelist=[str(f)], fileformats=["leeds"], grain_model="hh93",
                          species_kwargs={"grain_symbol": "GRAIN", "surface_prefix": "G", "bulk_prefix": "@"})
        path = chk.scratch / "ice-render"
        render(net, "dense", path)
    except Exception as e:
        chk.violation({"kind": "render-raised"}, f"rendering an ice network with hh93 raised {e}")
        return
    txt = (path / "src" / "naunet_constants.cpp").read_text()
    got = {m.group(1): float(m.group(2)) for m in re.finditer(r"double eb_(\w+)\s*=\s*([-+0-9.eE]+);", txt)}
    want = {"GCOI": EB_TABLE["CO"], "GCH4I": 1234.5, "GH2OI": EB_TABLE["H2O"], "GOHM": EB_TABLE["OH-"], "GCNM": EB_TABLE["CN-"],
            "GOHI": EB_TABLE["OH"]}
    chk.count(("constants",), nontrivial=True)
    if got != want:
        chk.violation({"kind": "binding-energy-constant"}, f"emitted binding energies {got} differ from the species' own values {want} "
                      "(user override first, then the RATE12 table)", input={"species": ["GCO", "GCH4 (user value 1234.5)", "GH2O", "GOH-", "GCN-", "GOH"]})
    rates = (path / "src" / "naunet_rates.cpp").read_text()
    if "2.5e-03" not in rates.replace("0.0025", "2.5e-03") :
        chk.violation({"kind": "yield-not-used"}, "the user photodesorption yield of GH2O (2.5e-3) does not appear in its photodesorption rate")


def oracle(chk, rng, mname, ty, alpha, s_infos, syms, txt, case):
    try:
        ast = cparse.parse_expr(txt)
    except cparse.CParseError as e:
        chk.violation({"kind": "not-an-expression", "model": mname}, f"emitted grain rate is not a C expression: {txt[:160]} ({e})", input=case)
        return True
    for trial in range(4):
        p = Params(rng)
        for s in s_infos:
            p["eb_" + s["alias"]] = s["eb"]
        if s_infos[0]["eb"]:
            # thresholds just below / above the species' own binding energy, so that a wrong value changes the branch -
            # and once exactly *at* it (the gates are inclusive: a species desorbs when its binding energy does not exceed the
            # threshold; the packaged cloud example sets the threshold to the binding energy of #C2)
            for k in ("eb_uvd", "eb_crd", "eb_h2d"):
                p[k] = s_infos[0]["eb"] * (1.0 if trial == 3 else rng.choice([0.93, 1.07, 0.5, 3.0]))
        try:
            want = physical(mname, ty, p, alpha, s_infos[0], s_infos[1], syms)
        except (ValueError, OverflowError, ZeroDivisionError):
            continue
        env = p
        env["fmax"], env["fmin"] = max, min
        try:
            got = ceval.ev(ast, env)
        except (ValueError, OverflowError, ZeroDivisionError):
            continue
        if abs(got - want) > 1e-9 * max(abs(got), abs(want), 1e-300):
            chk.violation({"kind": "law-differs", "model": mname, "type": case["type"]},
                          f"{mname} {case['type']} for {case['reactants']}: emitted `{txt[:200]}` evaluates to {got!r}, the dust model gives {want!r}",
                          input=case, species=s_infos)
            return True
    return False


if __name__ == "__main__":
    sys.exit(run(sys.argv[1:]))
