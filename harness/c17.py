"""C17: rendering is a deterministic function of the network description.

Every description is rendered (a) in fresh processes under different PYTHONHASHSEED values, (b) twice in one process,
(c) after / between operations on *other* networks with different element lists, prefixes, binding energies, KROME
directives, through the API and through the `naunet render` command.  All hashes of one description must agree.
The Lean side proves order independence of the species ordering and non-interference of the entry-point prologue."""
from __future__ import annotations

import json
import os
import subprocess
import sys
from concurrent.futures import ThreadPoolExecutor
from pathlib import Path

from . import netgen
from .common import Check, REPO, ROOT, lean_driver, quiet_naunet, tier_and_seed

quiet_naunet()
MODULES = ["NaunetProps.C17"]
THEOREMS = ["Naunet.C17.order_independent", "Naunet.C17.order_idempotent", "Naunet.C17.noninterference",
            "Naunet.C17.leak_example", "Naunet.C17.le_antisymm'", "Naunet.C17.le_total'", "Naunet.C17.le_trans'"]
RULE = ("network descriptions (default element list, upper-case list, 'G' surface prefix, KROME file with @var/@common, ice on "
        "three grain populations with the hh93 model) x "
        "{fresh process per PYTHONHASHSEED, repeated rendering, interleaving with building/editing/rendering other networks, "
        "user binding energies set for another project, two `naunet render` runs in one process}; case = one rendering whose "
        "sha256 over include/ src/ python/ is compared with the description's baseline; non-trivial = network has reactions")

DEFAULT_ELEMENTS = ["e", "E", "H", "D", "He", "C", "N", "O", "F", "Na", "Mg", "Al", "Si", "P", "S", "Cl", "Ar", "Ca", "Fe", "Ni"]
DEFAULT_PSEUDO = ["CR", "CRP", "XRAY", "Photon", "PHOTON", "CRPHOT", "X", "M", "p", "o", "m", "c-", "l-", "g"]
UPPER_ELEMENTS = ["E", "H", "D", "HE", "C", "N", "O", "MG", "SI", "S", "CL"]
UPPER_PSEUDO = ["CR", "CRP", "PHOTON", "CRPHOT"]
BACKENDS = [("cvode", "dense", "cpu"), ("cvode", "sparse", "cpu"), ("odeint", "rosenbrock4", "cpu")]


def native(idx, re_, pr_, a=1e-10, b=0.0, c=0.0, ty=100):
    re_ = list(re_) + [""] * (3 - len(re_))
    pr_ = list(pr_) + [""] * (5 - len(pr_))
    return ",".join([f"{idx:<5}", *[f"{x:>12}" for x in re_], *[f"{x:>12}" for x in pr_], f"{a:10.3e}", f"{b:10.3e}",
                     f"{c:10.3e}", f"{-1.0:9.2f}", f"{-1.0:9.2f}", f"{ty:>4}", f"{'test':>8}"])


def descriptions(rng, tier):
    out = {}
    # D1: random default-list network
    pool = netgen.gas_pool()
    sub, reacs = netgen.random_network(rng, pool, rng.randint(4, 10), rng.randint(4, 20), electron_spellings=("e-",))
    out["default"] = {"elements": DEFAULT_ELEMENTS, "pseudo": DEFAULT_PSEUDO, "kwargs": {},
                      "files": [["".join(netgen.native_line(r) + "\n" for r in reacs), "naunet"]],
                      "required": ["He"],
                      # user modifiers are part of the description: every rendering of the object has to honour them
                      "rate_modifier": {"1": "2.5e-13 * pow(Tgas/300.0, 2.0)", "3": "0.0"},
                      "ode_modifier": {sub[0].name: {"factors": ["-1e-3"], "reactants": [[sub[0].name]]}}}
    # D2: upper-case element list (UCLCHEM style spelling)
    up = [native(1, ["HE+", "E"], ["HE"]), native(2, ["MG", "HE+"], ["MG+", "HE"]), native(3, ["SI", "H+"], ["SI+", "H"]),
          native(4, ["H", "CRP"], ["H+", "E"], ty=101), native(5, ["CL", "H2"], ["HCL", "H"]), native(6, ["SIO", "HE+"], ["SI+", "O", "HE"])]
    rng.shuffle(up)
    out["upper"] = {"elements": UPPER_ELEMENTS, "pseudo": UPPER_PSEUDO, "kwargs": {}, "files": [["\n".join(up) + "\n", "naunet"]]}
    # D3: surface prefix G
    gl = [netgen.leeds_line(1, ["CO", "H"], ["GCO", "H"]), netgen.leeds_line(2, ["GCO", "H2"], ["CO", "H2"]),
          netgen.leeds_line(3, ["H", "H"], ["H2"]), netgen.leeds_line(4, ["GH", "GH"], ["GH2"]),
          netgen.leeds_line(5, ["GH2", "H"], ["H2", "H"])]
    out["gprefix"] = {"elements": DEFAULT_ELEMENTS, "pseudo": DEFAULT_PSEUDO,
                      "kwargs": {"grain_symbol": "GRAIN", "surface_prefix": "G", "bulk_prefix": "@"},
                      "files": [["\n".join(gl) + "\n", "leeds"]]}
    # D4: KROME with directives
    krome = ("@common:user_crate,user_Av\n@var:ntot=nH\n@var:Hnuclei = get_Hnuclei(n(:))\n@format:idx,R,R,R,P,P,P,P,Tmin,Tmax,rate\n"
             "1,H,E,,H+,E,E,,NONE,NONE,exp(-32.71396786d0+13.5365560d0*lnTe)\n"
             "2,H+,E,,H,,,,NONE,.LE.5.5e3,3.92d-13*invTe**0.6353d0\n"
             "3,H+,E,,H,,,,>5.5e3,NONE,exp(-28.61303380689232d0)*user_crate\n"
             "4,HE,E,,HE+,E,E,,NONE,NONE,2.38d-11*sqrt(Tgas)*ntot\n")
    out["krome"] = {"elements": ["E", "H", "HE"], "pseudo": ["g"], "kwargs": {}, "files": [[krome, "krome"]]}
    # the same reactions under other directives: equal reaction lists, different parameter / variable tables
    krome2 = krome.replace("@common:user_crate,user_Av", "@common:user_crate,user_Av,user_extra").replace("@var:ntot=nH", "@var:ntot=2.0*nH*user_extra")
    out["krome2"] = {"elements": ["E", "H", "HE"], "pseudo": ["g"], "kwargs": {}, "files": [[krome2, "krome"]]}
    # D5: ice species on several grain populations (#1…, #2…, #3…): one Grain component per group
    mg = [native(1, ["H", "OH"], ["H2O"]), native(2, ["C", "OH"], ["CO", "H"]), native(3, ["N", "N"], ["N2"]),
          native(4, ["H2O"], ["#1H2O"], a=1.0, ty=200), native(5, ["#1H2O"], ["H2O"], a=1.0, ty=201),
          native(6, ["N2"], ["#3N2"], a=1.0, ty=200), native(7, ["#3N2"], ["N2"], a=1.0, ty=201),
          native(8, ["CO"], ["#2CO"], a=1.0, ty=200), native(9, ["#2CO"], ["CO"], a=1.0, ty=201),
          native(10, ["CO"], ["#1CO"], a=1.0, ty=200), native(11, ["#1CO"], ["CO"], a=1.0, ty=201)]
    rng.shuffle(mg)
    out["multigroup"] = {"elements": DEFAULT_ELEMENTS, "pseudo": DEFAULT_PSEUDO, "kwargs": {}, "grain_model": "hh93",
                         "files": [["\n".join(mg) + "\n", "naunet"]]}
    # D6: a project that declares its elements only (no pseudo-elements at all): the generic third body `M` is an element of
    # this network, although `M` is a pseudo-element in the default list and in other projects
    eo = [native(1, ["H", "H", "M"], ["H2", "M"]), native(2, ["C", "O"], ["CO"]), native(3, ["CO", "M"], ["C", "O", "M"]),
          native(4, ["H2", "O"], ["OH", "H"])]
    out["elements-only"] = {"elements": ["H", "C", "O", "M"], "pseudo": [], "kwargs": {}, "files": [["\n".join(eo) + "\n", "naunet"]]}
    # D8: a thermal network: several cooling processes, listed by the user in an order of their own
    th = [native(1, ["H", "CR"], ["H+", "e-"], ty=101), native(2, ["H+", "e-"], ["H"], b=-0.6), native(3, ["He", "CR"], ["He+", "e-"], ty=101),
          native(4, ["He+", "e-"], ["He"], b=-0.6), native(5, ["He+", "CR"], ["He++", "e-"], ty=101), native(6, ["He++", "e-"], ["He+"], b=-0.7)]
    out["thermal"] = {"elements": DEFAULT_ELEMENTS, "pseudo": DEFAULT_PSEUDO, "kwargs": {}, "files": [["\n".join(th) + "\n", "naunet"]],
                      "cooling": ["RC_HeII", "CIC_HI", "CEC_HeI", "RC_HII", "CIC_HeII", "CEC_HI", "CIC_HeI"]}
    # D7: the spellings of D4's species under the default element list, where `HE` is hydrogen plus the element `E`
    hd = [native(1, ["H", "H"], ["H2"]), native(2, ["HE+", "E"], ["HE"]), native(3, ["H+", "E"], ["H"])]
    out["he-default-lists"] = {"elements": DEFAULT_ELEMENTS, "pseudo": DEFAULT_PSEUDO, "kwargs": {}, "files": [["\n".join(hd) + "\n", "naunet"]]}
    return out


def run_worker(job, hashseed):
    env = dict(os.environ, PYTHONHASHSEED=str(hashseed), TQDM_DISABLE="1")
    r = subprocess.run([sys.executable, str(ROOT / "harness" / "c17_worker.py")], input=json.dumps(job), capture_output=True,
                       text=True, env=env, cwd=str(ROOT), timeout=900)
    if r.returncode != 0:
        return {"crash": r.stderr[-1500:]}
    return json.loads(r.stdout.strip().split("\n")[-1])


def make_cli_project(d: Path, desc, name, binding=None, method="dense", replacement=None):
    """write a project directory readable by `naunet render` (keys as written by the init command)"""
    import tomlkit
    d.mkdir(parents=True, exist_ok=True)
    files = []
    for i, (content, fmt) in enumerate(desc["files"]):
        fn = f"net{i}.{fmt}"
        (d / fn).write_text(content)
        files.append(fn)
    kw = desc.get("kwargs") or {}
    doc = {
        "general": {"creation_time": "x", "name": name, "description": "", "loads": []},
        "chemistry": {
            "symbol": {"grain": kw.get("grain_symbol", "GRAIN"), "surface": kw.get("surface_prefix", "#"), "bulk": kw.get("bulk_prefix", "@")},
            "element": {"elements": desc["elements"], "pseudo_elements": desc["pseudo"], "replacement": replacement or {}},
            "species": {"allowed": [], "required": desc.get("required", []), "binding_energy": binding or {}, "photon_yield": {}},
            "grain": {"model": desc.get("grain_model", "")},
            "network": {"files": files, "formats": [f for _, f in desc["files"]]},
            "thermal": {"heating": [], "cooling": []},
            "shielding": {}, "rate_modifier": {}, "ode_modifier": {},
        },
        "ODEsolver": {"solver": "cvode", "device": "cpu", "method": method, "required": {}},
        "summary": {},
    }
    (d / "naunet_config.toml").write_text(tomlkit.dumps(doc))


def run(argv):
    tier, seed = tier_and_seed(argv)
    chk = Check("C17", tier, seed, MODULES, THEOREMS, RULE)
    chk.prove()
    rng = chk.rng
    descs = descriptions(rng, tier)
    seeds = [0, 1, 2, 12345] if tier == "quick" else [0, 1, 2, 3, 7, 42, 12345, 999983]
    names = list(descs)
    jobs = []  # (label, job, hashseed)
    # (a) fresh process per hash seed: baseline + repeated rendering
    for hs in seeds:
        steps = []
        for nm in names:
            steps.append({"op": "build", "id": nm, "desc": descs[nm]})
            for b in BACKENDS if tier == "thorough" or hs == 0 else BACKENDS[:1]:
                steps.append({"op": "render", "id": nm, "backend": b, "tag": [nm, b[1]]})
        jobs.append((f"fresh-seed{hs}", {"steps": steps}, hs))
    # (b) each description alone in its own process (the baseline that nothing else can have influenced)
    for nm in names:
        steps = [{"op": "build", "id": nm, "desc": descs[nm]}]
        for b in BACKENDS:
            steps.append({"op": "render", "id": nm, "backend": b, "tag": [nm, b[1]]})
            steps.append({"op": "render", "id": nm, "backend": b, "tag": [nm, b[1]]})
        jobs.append((f"alone-{nm}", {"steps": steps}, 0))
    # (c) interleavings: build A, then build/query/render B, then render A; edit after interleaving
    pairs = [(a, b) for a in names for b in names if a != b]
    if tier == "quick":
        pairs = rng.sample(pairs, 6) + [("upper", "default"), ("gprefix", "upper"), ("krome2", "krome"), ("krome", "krome2"),
                                        ("elements-only", "upper"), ("elements-only", "default"), ("krome", "he-default-lists"),
                                        ("he-default-lists", "krome")]
    for a, b in pairs:
        steps = [{"op": "build", "id": "A", "desc": descs[a]}, {"op": "build", "id": "B", "desc": descs[b]},
                 {"op": "query", "id": "B"}, {"op": "render", "id": "B", "backend": BACKENDS[0], "tag": [b, "dense"]},
                 {"op": "render", "id": "A", "backend": BACKENDS[0], "tag": [a, "dense"]},
                 {"op": "render", "id": "A", "backend": BACKENDS[1], "tag": [a, "sparse"]}]
        jobs.append((f"interleave-{a}-after-{b}", {"steps": steps}, rng.choice(seeds)))
    # (c1) the host-code patch is rendered from the same network object: neither the patch nor the sources may depend on which of the
    #      two was rendered first, or on how often
    for nm in ("default", "upper", "krome"):
        steps = [{"op": "build", "id": "A", "desc": descs[nm]},
                 {"op": "patch", "id": "A", "tag": [nm, "enzo-patch"]},
                 {"op": "render", "id": "A", "backend": BACKENDS[0], "tag": [nm, "dense"]},
                 {"op": "patch", "id": "A", "tag": [nm, "enzo-patch"]},
                 {"op": "render", "id": "A", "backend": BACKENDS[0], "tag": [nm, "dense"]}]
        jobs.append((f"patch-then-render-{nm}", {"steps": steps}, rng.choice(seeds)))
        jobs.append((f"render-then-patch-{nm}", {"steps": [steps[0], steps[2], steps[1]]}, 0))
    # (c2) editing A after B was built: the late line must be parsed with A's own lists
    extra = {"upper": (native(77, ["MG+", "E"], ["MG"]), "naunet"), "default": (native(77, ["Mg+", "e-"], ["Mg"]), "naunet"),
             "krome": ("5,HE+,E,,HE,,,,NONE,NONE,1.0d-11", "krome"), "krome2": ("5,HE+,E,,HE,,,,NONE,NONE,1.0d-11", "krome"),
             "gprefix": (netgen.leeds_line(77, ["GH", "GCO"], ["GHCO"]), "leeds"),
             "multigroup": (native(77, ["#2N2"], ["N2"], a=1.0, ty=201), "naunet"),
             "elements-only": (native(77, ["OH", "M"], ["O", "H", "M"]), "naunet"),
             "he-default-lists": (native(77, ["HE", "H+"], ["HE+", "H"]), "naunet"),
             "thermal": (native(77, ["He", "H+"], ["He+", "H"]), "naunet")}
    for a in names:
        line, fmt = extra[a]
        base_steps = [{"op": "build", "id": "A", "desc": descs[a]}, {"op": "add_line", "id": "A", "line": line, "fmt": fmt},
                      {"op": "render", "id": "A", "backend": BACKENDS[0], "tag": [a + "+line", "dense"]}]
        jobs.append((f"edit-{a}-alone", {"steps": base_steps}, 0))
        for b in names:
            if b == a or (tier == "quick" and rng.random() < 0.5):
                continue
            steps = [base_steps[0], {"op": "build", "id": "B", "desc": descs[b]}, {"op": "query", "id": "B"}] + base_steps[1:]
            jobs.append((f"edit-{a}-after-{b}", {"steps": steps}, rng.choice(seeds)))
    # (c2b) a network that was looked at (species listed, duplicates searched by object and by printed form, reactions printed) before
    #       its first rendering
    for nm in names:
        jobs.append((f"looked-at-then-render-{nm}", {"steps": [{"op": "build", "id": "A", "desc": descs[nm]}, {"op": "query", "id": "A"},
                                                              {"op": "render", "id": "A", "backend": BACKENDS[0], "tag": [nm, "dense"]}]},
                     rng.choice(seeds)))
    # (c3) a line whose species the network already has (as reactants and as products): it changes how the species are connected,
    #      hence their order; the network was rendered (its species looked at) before the line arrived
    inner = {"upper": (native(78, ["SI", "H2"], ["HCL", "O"]), "naunet"), "elements-only": (native(78, ["CO", "H2"], ["OH", "C"]), "naunet"),
             "multigroup": (native(78, ["H", "N2"], ["H2O", "CO"]), "naunet")}
    for a, (line, fmt) in inner.items():
        alone = [{"op": "build", "id": "A", "desc": descs[a]}, {"op": "add_line", "id": "A", "line": line, "fmt": fmt},
                 {"op": "render", "id": "A", "backend": BACKENDS[0], "tag": [a + "+inner-line", "dense"]}]
        jobs.append((f"inner-edit-{a}-alone", {"steps": alone}, 0))
        jobs.append((f"inner-edit-{a}-after-own-render",
                     {"steps": [alone[0], {"op": "render", "id": "A", "backend": BACKENDS[0], "tag": [a, "dense"]}, {"op": "query", "id": "A"}] + alone[1:]},
                     rng.choice(seeds)))
    # (c3b) the network's own entry point with different solver options one after another in one process: each call renders what it
    #       was asked for (`to_code(method="sparse")` after another network's `to_code(method="dense")`)
    for a, b in (("default", "upper"), ("upper", "default")):
        for (m1, m2) in ((BACKENDS[0], BACKENDS[1]), (BACKENDS[1], BACKENDS[0])):
            tagx = [a, f"to_code-{m2[1]}"]
            jobs.append((f"tocode-{a}-{m2[1]}-alone", {"steps": [{"op": "build", "id": "A", "desc": descs[a]},
                                                                 {"op": "to_code", "id": "A", "backend": m2, "tag": tagx}]}, 0))
            jobs.append((f"tocode-{a}-{m2[1]}-after-{b}-{m1[1]}",
                         {"steps": [{"op": "build", "id": "B", "desc": descs[b]}, {"op": "to_code", "id": "B", "backend": m1, "tag": [b, f"to_code-{m1[1]}"]},
                                    {"op": "build", "id": "A", "desc": descs[a]}, {"op": "to_code", "id": "A", "backend": m2, "tag": tagx}]},
                         rng.choice(seeds)))
    # (c4) a species spelled two ways (the electron: `E` in KROME files, `e-` elsewhere); the reaction that brought the first spelling
    #      is removed again: what remains is described by the remaining lines alone
    two = [native(1, ["H+", "E"], ["H"]), native(2, ["H-", "H"], ["H2", "e-"]), native(3, ["H2", "e-"], ["H", "H", "e-"]),
           native(4, ["H", "e-"], ["H-"])]
    for first in (0, 3):
        lines = two if first == 0 else [two[3], two[1], two[2], native(1, ["H+", "E"], ["H"])]
        bare = {"elements": DEFAULT_ELEMENTS, "pseudo": DEFAULT_PSEUDO, "kwargs": {}}
        hist = dict(bare, files=[["\n".join(lines) + "\n", "naunet"]])
        rest = dict(bare, files=[["\n".join(l for k, l in enumerate(lines) if k != first) + "\n", "naunet"]])
        tagx = [f"two-spellings-minus-{first}", "dense"]
        jobs.append((f"spelling-removed-{first}-direct", {"steps": [{"op": "build", "id": "A", "desc": rest},
                                                                    {"op": "render", "id": "A", "backend": BACKENDS[0], "tag": tagx}]}, 0))
        jobs.append((f"spelling-removed-{first}-history", {"steps": [{"op": "build", "id": "A", "desc": hist}, {"op": "query", "id": "A"},
                                                                     {"op": "remove", "id": "A", "index": first},
                                                                     {"op": "render", "id": "A", "backend": BACKENDS[0], "tag": tagx}]},
                     rng.choice(seeds)))
    # (d) binding energies of another project must not matter to a network without ice species... they are global by
    #     design through the API; through the CLI each project states its own table: render P1 (with a binding-energy
    #     table), then P2 in the same process; P2 alone is the baseline.
    cli_root = chk.scratch / "cli"
    ice = {"elements": DEFAULT_ELEMENTS, "pseudo": DEFAULT_PSEUDO,
           "kwargs": {"grain_symbol": "GRAIN", "surface_prefix": "G", "bulk_prefix": "@"}, "grain_model": "hh93",
           "files": [["\n".join([netgen.leeds_line(1, ["CO"], ["GCO"], rtype=7), netgen.leeds_line(2, ["GCO"], ["CO"], rtype=8),
                                  netgen.leeds_line(3, ["H", "H"], ["H2"])]) + "\n", "leeds"]]}
    for tag, d, be in (("p1", descs["upper"], None), ("p2", descs["default"], None), ("p2alone", descs["default"], None),
                       ("ice1", ice, {"GCO": 999.0}), ("ice2", ice, {}), ("ice2alone", ice, {})):
        make_cli_project(cli_root / tag, d, "proj", binding=be)
    # a KROME file that is refused part-way (a species of an element the project does not list) must leave nothing behind for
    # the next KROME network read in the same process
    bad_krome = ("@common:user_leak1,user_leak2\n@var:leaky = 2.0*user_leak1\n@format:idx,R,R,R,P,P,P,P,Tmin,Tmax,rate\n"
                 "1,H,E,,H+,E,E,,NONE,NONE,1.0d-10*user_leak1\n2,XE,E,,XE+,E,E,,NONE,NONE,1.0d-10*leaky\n")
    bad = dict(descs["krome"], files=[[bad_krome, "krome"]])
    jobs.append(("failed-read-then-krome", {"steps": [{"op": "build_may_fail", "id": "X", "desc": bad, "tag": ["krome-refused", "-"]},
                                                      {"op": "build", "id": "B", "desc": descs["krome"]},
                                                      {"op": "render", "id": "B", "backend": BACKENDS[0], "tag": ["krome", "dense"]}]}, 2))
    jobs.append(("failed-read-alone", {"steps": [{"op": "build_may_fail", "id": "X", "desc": bad, "tag": ["krome-refused", "-"]}]}, 0))
    # the user binding-energy table is read when the code is generated: the same Network object rendered before and after the
    # table changes must give what a fresh build under the new table gives
    eb = {"GCO": 999.0}
    jobs.append(("eb-fresh", {"steps": [{"op": "binding", "values": eb}, {"op": "build", "id": "A", "desc": ice},
                                        {"op": "render", "id": "A", "backend": BACKENDS[0], "tag": ["ice-eb999", "dense"]}]}, 0))
    jobs.append(("eb-after-first-render", {"steps": [{"op": "build", "id": "A", "desc": ice},
                                                     {"op": "render", "id": "A", "backend": BACKENDS[0], "tag": ["ice-eb-table", "dense"]},
                                                     {"op": "binding", "values": eb},
                                                     {"op": "render", "id": "A", "backend": BACKENDS[0], "tag": ["ice-eb999", "dense"]}]}, 1))
    # a replacement table belongs to its own project: the same upper-case network with and without one
    REPL = {"E": "e", "HE": "He", "MG": "Mg", "SI": "Si", "CL": "Cl"}
    for tag, rp in (("up-repl", REPL), ("up-plain", None), ("up-plain-alone", None), ("up-repl-alone", REPL)):
        make_cli_project(cli_root / tag, descs["upper"], "proj", replacement=rp)
    jobs.append(("cli-upper-plain-alone", {"steps": [{"op": "cli_render", "dir": str(cli_root / "up-plain-alone"), "tag": ["cli-upper-plain", "dense"]}]}, 0))
    jobs.append(("cli-upper-repl-alone", {"steps": [{"op": "cli_render", "dir": str(cli_root / "up-repl-alone"), "tag": ["cli-upper-repl", "dense"]}]}, 0))
    jobs.append(("cli-upper-plain-after-repl", {"steps": [
        {"op": "cli_render", "dir": str(cli_root / "up-repl"), "tag": ["cli-upper-repl", "dense"]},
        {"op": "cli_render", "dir": str(cli_root / "up-plain"), "tag": ["cli-upper-plain", "dense"]}]}, 1))
    jobs.append(("cli-p2-alone", {"steps": [{"op": "cli_render", "dir": str(cli_root / "p2alone"), "tag": ["cli-default", "dense"]}]}, 0))
    jobs.append(("cli-p2-after-p1", {"steps": [{"op": "cli_render", "dir": str(cli_root / "p1"), "tag": ["cli-upper", "dense"]},
                                               {"op": "cli_render", "dir": str(cli_root / "p2"), "tag": ["cli-default", "dense"]}]}, 1))
    jobs.append(("cli-ice-alone", {"steps": [{"op": "cli_render", "dir": str(cli_root / "ice2alone"), "tag": ["cli-ice", "dense"]}]}, 0))
    jobs.append(("cli-ice-after-other-binding-table", {"steps": [
        {"op": "cli_render", "dir": str(cli_root / "ice1"), "tag": ["cli-ice-eb999", "dense"]},
        {"op": "cli_render", "dir": str(cli_root / "ice2"), "tag": ["cli-ice", "dense"]}]}, 2))
    with ThreadPoolExecutor(8) as ex:
        results = list(ex.map(lambda j: run_worker(j[1], j[2]), jobs))
    baseline = {}
    for (label, job, hs), res in zip(jobs, results):
        if isinstance(res, dict) and "crash" in res:
            chk.violation({"kind": "worker-crash", "job": label.split("-")[0]}, f"worker process crashed in job {label}", stderr=res["crash"])
            continue
        for item in res:
            tag = tuple(item["tag"])
            chk.count((label, tag, len(baseline)), nontrivial=True)
            chk.hist[label.split("-")[0]] += 1
            if "error" in item:
                # a rendering that is refused is an outcome like any other: it must be refused every time, the same way
                item = dict(item, hash="refused: " + str(item["error"]).split(":")[0])
                chk.hist["refused"] += 1
            if tag not in baseline:
                baseline[tag] = (item["hash"], label)
            elif baseline[tag][0] != item["hash"]:
                chk.violation({"kind": "output-differs", "job": label.split("-")[0], "description": tag[0]},
                              f"description {tag[0]} ({tag[1]}) rendered differently in job '{label}' (hash seed {hs}) than in "
                              f"job '{baseline[tag][1]}'", job=label, baseline_job=baseline[tag][1],
                              hashes=[baseline[tag][0], item["hash"]])
    chk.sample({"jobs": [j[0] for j in jobs][:12], "descriptions": names})
    chk.traces = len(baseline)
    # ---- model correspondence: the species order of the implementation is the model's order of any permutation
    correspondence_order(chk, descs)
    return chk.finish()


def correspondence_order(chk, descs):
    if not getattr(chk, "lean_ok", False):
        return
    from naunet.network import Network
    from .common import silenced
    from naunet.species import Species
    reqs, want = [], []
    for nm, d in descs.items():
        Species.reset()
        tmp = chk.scratch / f"ord-{nm}"
        tmp.mkdir(parents=True, exist_ok=True)
        files = []
        for i, (content, fmt) in enumerate(d["files"]):
            f = tmp / f"n{i}.{fmt}"
            f.write_text(content)
            files.append(str(f))
        with silenced():
            net = Network(filelist=files, fileformats=[f for _, f in d["files"]], elements=d["elements"], pseudo_elements=d["pseudo"],
                          required_species=d.get("required") or None, species_kwargs=d.get("kwargs") or None)
            species = net.species
        conn = {s: set() for s in species}
        for r in net.reaction_list:
            rp = r.reactants + r.products
            for s in rp:
                conn[s].update(rp)
        items = [[len(conn[s]), s.name] for s in species]
        for _ in range(3):
            perm = items[:]
            chk.rng.shuffle(perm)
            reqs.append({"cmd": "order", "items": perm})
            want.append([s.name for s in species])
    try:
        answers = lean_driver(reqs)
    except Exception as e:
        chk.corr_break("driver", None, None, str(e)[:300])
        return
    for r, a, w in zip(reqs, answers, want):
        if a != w:
            chk.corr_break("species-order", r["items"][:10], a, w)
        else:
            chk.traces += 1


if __name__ == "__main__":
    sys.exit(run(sys.argv[1:]))
