"""Type-directed generators: abstract species with ground-truth composition, abstract reactions,
networks, and their spelling for naunet's API / file formats.  Nothing here imports naunet."""
from __future__ import annotations

from dataclasses import dataclass, field

ELEMENT_A = {"M": 0, "13C": 13, "H": 1, "D": 2, "He": 4, "C": 12, "N": 14, "O": 16, "Si": 28, "S": 32, "Mg": 24, "Fe": 56,
             "Na": 23, "Cl": 35, "P": 31, "F": 19}

PSEUDO = ["CR", "CRP", "PHOTON", "CRPHOT", "Photon", "XRAY"]


@dataclass(frozen=True)
class ASpec:
    """ground-truth species: identity key, spelling, composition, charge, phase"""
    key: str
    name: str
    comp: tuple  # ((element, count), ...)
    charge: int
    kind: str  # gas | ice | electron | grain
    alias: str

    def count(self, el):
        return dict(self.comp).get(el, 0)

    @property
    def A(self):
        return sum(ELEMENT_A[e] * n for e, n in self.comp)


def spell(parts, charge=0, ice=False, label="", prefix="#"):
    body = "".join(f"{s}{n if n > 1 else ''}" for s, n in parts)
    sign = "+" * charge if charge > 0 else "-" * (-charge)
    return f"{prefix if ice else ''}{label}{body}{sign}"


def mk(parts, charge=0, ice=False, label="", prefix="#"):
    name = spell(parts, charge, ice, label, prefix)
    comp = {}
    for s, n in parts:
        comp[s] = comp.get(s, 0) + n
    base = f"{label}" + "".join(f"{s}{n if n > 1 else ''}" for s, n in parts)
    alias = ("G" if ice else "") + base + ("I" * (charge + 1) if charge >= 0 else "M" * (-charge))
    key = ("ice:" if ice else "gas:") + base + f":{charge}"
    return ASpec(key, name, tuple(sorted(comp.items())), charge, "ice" if ice else "gas", alias)


def electron(spelling="e-"):
    return ASpec("electron", spelling, (), -1, "electron", "eM" if spelling[0] == "e" else "EM")


def grain(charge=0):
    name = "GRAIN0" if charge == 0 else ("GRAIN-" if charge < 0 else "GRAIN+")
    alias = {0: "GRAIN0I", -1: "GRAINM", 1: "GRAINII"}[charge]
    return ASpec(f"grain:{charge}", name, (), charge, "grain", alias)


def gas_pool():
    P = []
    add = lambda *a, **k: P.append(mk(*a, **k))
    add([("H", 1)]); add([("H", 2)]); add([("H", 1)], 1); add([("H", 1)], -1); add([("H", 2)], 1); add([("H", 3)], 1)
    add([("He", 1)]); add([("He", 1)], 1); add([("He", 1)], 2)
    add([("C", 1)]); add([("C", 1)], 1); add([("C", 1)], -1); add([("O", 1)]); add([("O", 1)], 1); add([("O", 1)], -1)
    add([("C", 1), ("O", 1)]); add([("C", 1), ("O", 1)], 1); add([("H", 1), ("C", 1), ("O", 1)], 1)
    add([("O", 1), ("H", 1)]); add([("O", 1), ("H", 1)], 1); add([("H", 2), ("O", 1)]); add([("H", 2), ("O", 1)], 1)
    add([("H", 3), ("O", 1)], 1); add([("C", 1), ("H", 1)]); add([("C", 1), ("H", 1)], 1); add([("C", 1), ("H", 2)])
    add([("C", 1), ("H", 3)]); add([("C", 1), ("H", 4)]); add([("N", 1)]); add([("N", 2)]); add([("N", 1), ("H", 3)])
    add([("N", 2), ("H", 1)], 1); add([("Si", 1)]); add([("Si", 1)], 1); add([("Si", 1), ("O", 1)]); add([("S", 1)])
    add([("Mg", 1)]); add([("Mg", 1)], 1); add([("Fe", 1)]); add([("Fe", 1)], 1); add([("D", 1)]); add([("H", 1), ("D", 1)])
    add([("H", 2), ("D", 1)], 1); add([("C", 2), ("H", 2)]); add([("C", 1), ("O", 2)]); add([("Si", 1)], 4)
    add([("H", 2)], 0, label="o"); add([("H", 2)], 0, label="p"); add([("H", 2), ("D", 1)], 1, label="o")
    add([("C", 1), ("N", 1)]); add([("H", 1), ("C", 1), ("N", 1)]); add([("N", 1), ("O", 1)]); add([("C", 1), ("S", 1)])
    # condensed structural formulas: an element named more than once in one name
    add([("C", 1), ("H", 3), ("O", 1), ("H", 1)]); add([("C", 1), ("H", 3), ("O", 1), ("H", 2)], 1)
    add([("H", 1), ("C", 1), ("O", 1), ("O", 1), ("H", 1)]); add([("C", 1), ("H", 3), ("C", 1), ("N", 1)])
    add([("C", 1), ("H", 3), ("O", 1), ("C", 1), ("H", 3)])
    # names that differ from another species by letter case only (para-H2 `pH2` vs phosphino `PH2`)
    add([("P", 1)]); add([("P", 1), ("H", 1)]); add([("P", 1), ("H", 2)]); add([("P", 1), ("H", 2)], 1); add([("P", 1), ("H", 3)], 1)
    add([("H", 3)], 1, label="p"); add([("H", 3)], 1, label="o")
    # long chains: two-digit counts
    # one species in two negative charge states (C- is in the list above)
    add([("C", 1)], -2); add([("O", 1)], -2)
    add([("C", 10)]); add([("C", 11)]); add([("C", 12)], 1); add([("H", 1), ("C", 11), ("N", 1)]); add([("C", 11), ("H", 1)])
    add([("C", 6), ("H", 14)]); add([("C", 24), ("H", 12)])
    return P


def ice_pool(prefix="#"):
    P = []
    for parts in ([("H", 1)], [("H", 2)], [("C", 1), ("O", 1)], [("H", 2), ("O", 1)], [("C", 1), ("H", 4)],
                  [("N", 1), ("H", 3)], [("O", 1), ("H", 1)], [("C", 1), ("O", 2)], [("C", 1), ("H", 3), ("O", 1), ("H", 1)]):
        P.append(mk(parts, ice=True, prefix=prefix))
    return P


@dataclass
class AReac:
    """abstract reaction: lists of ASpec (multiplicity by repetition) + pseudo tokens + numbers"""
    re: list
    pr: list
    pseudo_re: list = field(default_factory=list)
    pseudo_pr: list = field(default_factory=list)
    alpha: float = 1e-10
    beta: float = 0.0
    gamma: float = 0.0
    tmin: float = -1.0
    tmax: float = -1.0
    idx: int = -1
    rtype: int = 100

    def sig(self):
        return (tuple(s.key for s in self.re), tuple(s.key for s in self.pr), self.tmin, self.tmax, self.rtype)


def random_network(rng, pool, n_species, n_reac, max_re=3, max_pr=5, with_pseudo=True, dup_rate=0.1,
                   electron_spellings=("e-",), window_rate=0.3, indexed=True, forced=(), third_body=False):
    """random (unbalanced) reactions over a random sub-pool"""
    n_species = min(n_species, len(pool))
    sub = rng.sample(pool, n_species) if n_species else []
    for f in forced:
        if f not in sub:
            sub.append(f)
    if sub and (forced or rng.random() < 0.7):
        sub.append(electron(rng.choice(electron_spellings)))
    reacs = []
    for i in range(n_reac if sub else 0):
        if reacs and rng.random() < dup_rate:
            src = rng.choice(reacs)
            r = AReac(list(src.re), list(src.pr), list(src.pseudo_re), list(src.pseudo_pr))
        else:
            nre = rng.choice([1, 1, 2, 2, 2, 3][:max(1, max_re * 2)])
            nre = min(nre, max_re)
            re_ = [rng.choice(sub) for _ in range(nre)]
            if nre >= 2 and rng.random() < 0.25:
                re_[1] = re_[0]  # repeated reactant (H + H)
            if nre == 3 and rng.random() < 0.3:
                re_[2] = re_[0]
            npr = rng.choice([0, 1, 1, 2, 2, 3, 4, 5])
            npr = min(npr, max_pr)
            pr_ = [rng.choice(sub) for _ in range(npr)]
            if pr_ and rng.random() < 0.25:
                pr_[-1] = rng.choice(re_)  # catalyst
            if len(pr_) >= 2 and rng.random() < 0.2:
                pr_[1] = pr_[0]
            r = AReac(re_, pr_)
            if with_pseudo and len(re_) < max_re and rng.random() < 0.25:
                r.pseudo_re = [rng.choice(PSEUDO[:4] + (["M", "M"] if third_body else []))]
                if r.pseudo_re == ["M"] and len(pr_) < max_pr and rng.random() < 0.7:
                    r.pseudo_pr = ["M"]                      # A + B + M -> AB + M
            if with_pseudo and len(pr_) < max_pr and rng.random() < 0.1:
                r.pseudo_pr = ["Photon"]
        if rng.random() < window_rate:
            r.tmin = rng.choice([-1.0, 0.0, 10.0, 100.0])
            r.tmax = rng.choice([-1.0, 0.0, 300.0, 41000.0])
        r.alpha = rng.choice([1e-10, 2.5e-9, 1.0, 3.3e-17])
        r.beta = rng.choice([0.0, 0.5, -0.5, 1.0])
        r.gamma = rng.choice([0.0, 10.0, 100.5])
        r.idx = i + 1 if indexed else -1
        reacs.append(r)
    return sub, reacs


def native_line(r: AReac, source="unknown"):
    """spell an abstract reaction as a line of the native exchange format (own encoder)"""
    re_ = [s.name for s in r.re] + r.pseudo_re
    pr_ = [s.name for s in r.pr] + r.pseudo_pr
    re_ = re_ + [""] * (3 - len(re_))
    pr_ = pr_ + [""] * (5 - len(pr_))
    return ",".join([f"{r.idx:<5}", *[f"{x:>12}" for x in re_], *[f"{x:>12}" for x in pr_],
                     f"{r.alpha:10.3e}", f"{r.beta:10.3e}", f"{r.gamma:10.3e}", f"{r.tmin:9.2f}", f"{r.tmax:9.2f}",
                     f"{r.rtype:>4}", f"{source:>8}"])


def kida_line(r: AReac, formula=3):
    re_ = [s.name for s in r.re] + r.pseudo_re
    pr_ = [s.name for s in r.pr] + r.pseudo_pr
    rs = "".join(f"{x:<11}" for x in re_ + [""] * (3 - len(re_)))
    ps = "".join(f"{x:<11}" for x in pr_ + [""] * (5 - len(pr_)))
    return (f"{rs} {ps} {r.alpha:10.3e} {r.beta:10.3e} {r.gamma:10.3e} 2.00e+00 0.00e+00 logn  1 "
            f"{int(r.tmin):>6d} {int(r.tmax):>6d} {formula:>2d} {r.idx:>5d} 1  1")


def umist_line(r: AReac, code="NN"):
    """RATE12 layout: at most 2 reactant and 4 product columns"""
    re_ = [s.name for s in r.re] + r.pseudo_re
    pr_ = [s.name for s in r.pr] + r.pseudo_pr
    assert len(re_) <= 2 and len(pr_) <= 4
    sp = re_ + [""] * (2 - len(re_)) + pr_ + [""] * (4 - len(pr_))
    return ":".join([str(r.idx), code, *sp, "1", f"{r.alpha:.2e}", f"{r.beta:.2f}", f"{r.gamma:.1f}", f"{r.tmin:g}", f"{r.tmax:g}",
                     "L", "C", '"10.1086/190919"', "", ""])


def fits_umist(r: AReac):
    return len(r.re) + len(r.pseudo_re) <= 2 and len(r.pr) + len(r.pseudo_pr) <= 4


def leeds_line(idx, re_, pr_, a=1e-10, b=0.0, c=0.0, lt=5, ht=41000, rtype=1):
    """own encoder of the Leeds (Walsh et al.) fixed-width format: 5 + 30 + 50 + 8 + 9 + 10 + 5 + 5 + 3 columns"""
    rs = "".join(f"{x:<10}" for x in list(re_) + [""] * (3 - len(re_)))
    ps = "".join(f"{x:<10}" for x in list(pr_) + [""] * (5 - len(pr_)))
    return f"{idx:<5d}{rs}{ps}{a:8.2E}{b:9.2f}{c:10.1f}{lt:5d}{ht:5d}{rtype:3d}"
